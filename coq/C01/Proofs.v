(** C01 — specification vocabulary and proofs.

    The specification part (up to "Proofs") is a transcription of the property
    statement and does not mention any function of C01/Model.v except the
    record types of its inputs and answers. *)
From HV Require Import Base.Prelude Base.ErrChain C12.Model C12.Proofs C01.Model.
Local Open Scope Z_scope.

(** ** Specification *)

(** "an authenticator produced a subject": some authenticator returned a subject
    and every authenticator in front of it returned an error (none of them
    panicked, none of them produced a subject before).  Whether falling back from
    a failed authenticator to the next one was legitimate is property C04's
    question, not this one's. *)
Definition subject_produced (l : list authn) : Prop :=
  exists l1 a l2, l = l1 ++ a :: l2 /\ a_out a = Ok /\ Forall (fun b => exists e, a_out b = Fail e) l1.

(** no `if`, or it evaluated to true *)
Definition cond_true (c : option cond) : Prop := c = None \/ c = Some (CVal true).

(** the `if` condition evaluated to false.  cellib represents "the expression's
    value is not true" by an [EvalError]; a program error that is (or wraps) an
    EvalError is that same answer (an implementation detail of cellib; no CEL
    program produces such an error, the correspondence streams never generate it) *)
Definition cond_false (c : option cond) : Prop :=
  c = Some (CVal false) \/ exists e, c = Some (CErr e) /\ occurs TEval e = true.

(** "every authorizer, contextualizer and finalizer not marked continue-on-error
    either was skipped because its `if` condition evaluated to false or ran and
    returned without error".  Steps marked continue-on-error are exempt as a whole:
    the statement's first sentence exempts them, and the code swallows both their
    errors and the evaluation errors of their conditions (witness
    [continue_step_condition_error_is_swallowed] below). *)
Definition step_passed (s : step) : Prop :=
  s_continue s = true \/ cond_false (s_if s) \/ (cond_true (s_if s) /\ s_out s = Ok).

Definition pipeline_completed (r : rule) : Prop :=
  subject_produced (sc r) /\ Forall step_passed (sh r) /\ Forall step_passed (fi r).

(** "a rule or the default rule applied to it" *)
Definition applied (l : lookup) (r : rule) : Prop := l = Matched r \/ l = Default r.

(** a positive answer: the accepted status of the decision service, forwarding
    to the upstream in proxy mode (whatever the upstream answers), an OK check
    response for Envoy *)
Definition positive (en : entry) (c : config) (a : answer) : Prop :=
  match en, a with
  | Decision, AHttp s _ => s = accepted_code c
  | Proxy, _ => (0 < hits_of a)%nat
  | Envoy, AEnvoyOk => True
  | _, _ => False
  end.

(** a non-success response, and nothing reached the upstream: an HTTP status
    that is not 1xx/2xx with no upstream hit, a dropped connection, an Envoy
    denied response with a non-OK code and non-1xx/2xx status, a gRPC status error *)
Definition non_success (a : answer) : Prop :=
  match a with
  | AHttp s hits => success_like s = false /\ hits = 0%nat
  | AAbort hits => hits = 0%nat
  | AEnvoyOk => False
  | AEnvoyDenied g s => g <> GOk /\ success_like s = false
  | AEnvoyStatus g => g <> GOk
  end.

(** the positive answer in full *)
Definition positive_shape (en : entry) (c : config) (a : answer) : Prop :=
  match en with
  | Decision => a = AHttp (accepted_code c) 0       (* accepted status, the upstream is never contacted *)
  | Proxy => hits_of a = 1%nat                      (* exactly one forwarded request, its outcome relayed *)
  | Envoy => a = AEnvoyOk
  end.

(** *** Hypotheses of the theorems

    On the configuration: no status override is a 1xx/2xx code; the accepted
    status is one (decision service only: to tell its positive answer from an
    error response); the rule has an authenticator (rule factory, C14).
    On the error VALUES that mechanisms, conditions and panics produce: none of
    them carries a RedirectError with a 1xx/2xx code ([redirects_ok]; heimdall's
    own redirect handler cannot be configured with such a code any more, see
    [loader_redirect_never_success]).
    On error handlers: each of them records a pipeline error before it reports
    "handled" ([handlers_record]: a semantic condition on arbitrary handlers, shown
    to hold for heimdall's three mechanisms). *)
Definition good_err (e : err) : Prop := redirects_not_success e.
Definition good_opt (o : option err) : Prop := match o with Some e => good_err e | None => True end.
Definition good_panic (v : option err) : Prop := good_opt v.
Definition good_outcome (o : outcome) : Prop :=
  match o with Ok => True | Fail e => good_err e | Panics v => good_panic v end.
Definition good_cond (c : option cond) : Prop :=
  match c with Some (CErr e) => good_err e | Some (CPanics v) => good_panic v | _ => True end.
Definition good_step (s : step) : Prop := good_cond (s_if s) /\ good_outcome (s_out s).
Definition good_eh_res (x : eh_res) : Prop :=
  match x with EhRet ret p => good_opt ret /\ good_opt p | EhPanic v => good_panic v end.
Definition good_eh (h : ehstep) : Prop :=
  good_cond (e_if h) /\
  match e_kind h with
  | EhReal (MRedirect code _) => success_like (redirect_status code) = false
  | EhReal _ => True
  | EhFails e => good_err e
  | EhPanics v => good_panic v
  | EhSilent => True
  | EhAny f => forall cause, good_err cause -> good_eh_res (f cause)
  end.

Definition redirects_ok (r : rule) : Prop :=
  Forall (fun a => good_outcome (a_out a)) (sc r) /\ Forall good_step (sh r) /\
  Forall good_step (fi r) /\ Forall good_eh (eh r).

(** "every error handler records a pipeline error before reporting success":
    whenever the handler returns nil it has recorded an error.  [result] is the
    handler's behaviour as a function of the cause; nothing else is assumed of it. *)
Definition records (result : err -> eh_res) : Prop :=
  forall cause ret p, result cause = EhRet ret p -> ret = None -> p <> None.

(** ... spelled out per kind of handler, without reference to the model's
    functions: heimdall's mechanisms and handlers that fail or panic do; the
    hypothetical silent handler does not; an arbitrary handler may or may not *)
Definition handler_records (h : ehstep) : Prop :=
  match e_kind h with
  | EhReal _ | EhFails _ | EhPanics _ => True
  | EhSilent => False
  | EhAny f => records f
  end.

Definition handlers_record (r : rule) : Prop := Forall handler_records (eh r).

(** what the rule factory guarantees of every loaded rule and of the default
    rule (theorem C14_accepted_only_if_wellformed): at least one authenticator *)
Definition sane (c : config) (r : rule) : Prop :=
  overrides_not_success (c_respond c) /\ redirects_ok r /\ sc r <> [] /\ handlers_record r.

(** ** The stronger reading used for the converse: the authenticator that produced
    the subject was reached by legitimate fallbacks (C04's rule) *)
Definition may_fall_back (a : authn) (e : err) : Prop :=
  occurs (TKind KArgument) e = true \/ a_fallback a = true.

Inductive authenticated : list authn -> Prop :=
| auth_here a rest : a_out a = Ok -> authenticated (a :: rest)
| auth_next a rest e :
    a_out a = Fail e -> may_fall_back a e -> authenticated rest -> authenticated (a :: rest).

Definition pipeline_succeeded (r : rule) : Prop :=
  authenticated (sc r) /\ Forall step_passed (sh r) /\ Forall step_passed (fi r).

Lemma authenticated_subject_produced l : authenticated l -> subject_produced l.
Proof.
  induction 1 as [a rest E|a rest e E F _ (l1 & b & l2 & E1 & E2 & E3)].
  - exists [], a, rest. repeat split; auto.
  - exists (a :: l1), b, l2. subst. repeat split; auto. constructor; eauto.
Qed.

Lemma succeeded_completed r : pipeline_succeeded r -> pipeline_completed r.
Proof. intros (A & B & C). split; [apply authenticated_subject_produced; exact A | auto]. Qed.

(** ** Executable versions (used by the evaluator), with their specifications *)

Fixpoint subject_produced_b (l : list authn) : bool :=
  match l with
  | [] => false
  | a :: rest => match a_out a with Ok => true | Fail _ => subject_produced_b rest | Panics _ => false end
  end.

Fixpoint authenticated_b (l : list authn) : bool :=
  match l with
  | [] => false
  | a :: rest =>
      match a_out a with
      | Ok => true
      | Fail e => (occurs (TKind KArgument) e || a_fallback a) && authenticated_b rest
      | Panics _ => false
      end
  end.

Definition cond_true_b (c : option cond) : bool :=
  match c with None | Some (CVal true) => true | _ => false end.
Definition cond_false_b (c : option cond) : bool :=
  match c with Some (CVal false) => true | Some (CErr e) => occurs TEval e | _ => false end.
Definition out_ok_b (o : outcome) : bool := match o with Ok => true | _ => false end.
Definition step_passed_b (s : step) : bool :=
  s_continue s || cond_false_b (s_if s) || (cond_true_b (s_if s) && out_ok_b (s_out s)).
Definition completed_b (r : rule) : bool :=
  subject_produced_b (sc r) && forallb step_passed_b (sh r) && forallb step_passed_b (fi r).
Definition succeeded_b (r : rule) : bool :=
  authenticated_b (sc r) && forallb step_passed_b (sh r) && forallb step_passed_b (fi r).

Lemma subject_produced_b_spec l : subject_produced_b l = true <-> subject_produced l.
Proof.
  induction l as [|a rest IH]; simpl.
  - split; [discriminate|]. intros (l1 & b & l2 & E & _). destruct l1; discriminate.
  - destruct (a_out a) as [|e|v] eqn:E.
    + split; [|reflexivity]. intros _. exists [], a, rest. repeat split; auto.
    + rewrite IH. split.
      * intros (l1 & b & l2 & E1 & E2 & E3). exists (a :: l1), b, l2. subst. repeat split; auto.
        constructor; eauto.
      * intros (l1 & b & l2 & E1 & E2 & E3). destruct l1 as [|x l1]; simpl in E1; inversion E1; subst.
        { congruence. }
        inversion E3; subst. exists l1, b, l2. auto.
    + split; [discriminate|]. intros (l1 & b & l2 & E1 & E2 & E3).
      destruct l1 as [|x l1]; simpl in E1; inversion E1; subst; [congruence|].
      inversion E3 as [|? ? [e' He] _]; subst. congruence.
Qed.

Lemma authenticated_b_spec l : authenticated_b l = true <-> authenticated l.
Proof.
  induction l as [|a rest IH]; simpl.
  - split; [discriminate | inversion 1].
  - destruct (a_out a) as [|e|v] eqn:E.
    + split; [intros _; apply auth_here; exact E | reflexivity].
    + rewrite andb_true_iff, orb_true_iff, IH. split.
      * intros [H1 H2]. eapply auth_next; eauto.
      * inversion 1 as [? ? H1|? ? e' H1 H2 H3]; subst; [congruence|].
        rewrite E in H1. inversion H1; subst. split; assumption.
    + split; [discriminate|]. inversion 1; congruence.
Qed.

Lemma cond_true_b_spec c : cond_true_b c = true <-> cond_true c.
Proof.
  unfold cond_true. destruct c as [[[|]|e|v]|]; simpl; split; intro H; auto;
    try discriminate; destruct H as [H|H]; discriminate.
Qed.

Lemma cond_false_b_spec c : cond_false_b c = true <-> cond_false c.
Proof.
  unfold cond_false. destruct c as [[[|]|e|v]|]; simpl; split; intro H; auto; try discriminate;
    try (destruct H as [H|(e' & H & _)]; discriminate).
  - right. eauto.
  - destruct H as [H|(e' & H & H')]; [discriminate|]. inversion H; subst. exact H'.
Qed.

Lemma step_passed_b_spec s : step_passed_b s = true <-> step_passed s.
Proof.
  unfold step_passed_b, step_passed.
  rewrite !orb_true_iff, andb_true_iff, cond_false_b_spec, cond_true_b_spec.
  assert (O : out_ok_b (s_out s) = true <-> s_out s = Ok)
    by (destruct (s_out s); simpl; split; intro; congruence).
  rewrite O. tauto.
Qed.

Lemma forallb_steps l : forallb step_passed_b l = true <-> Forall step_passed l.
Proof.
  rewrite forallb_forall, Forall_forall. split; intros H s Hs; apply step_passed_b_spec; auto.
Qed.

Lemma completed_b_spec r : completed_b r = true <-> pipeline_completed r.
Proof.
  unfold completed_b, pipeline_completed.
  rewrite !andb_true_iff, subject_produced_b_spec, !forallb_steps. tauto.
Qed.

Lemma succeeded_b_spec r : succeeded_b r = true <-> pipeline_succeeded r.
Proof.
  unfold succeeded_b, pipeline_succeeded.
  rewrite !andb_true_iff, authenticated_b_spec, !forallb_steps. tauto.
Qed.

(** ** Proofs *)

Lemma is_arg_occurs e : is_ (TKind KArgument) e = occurs (TKind KArgument) e.
Proof. apply is_occurs. Qed.

(** *** authenticators *)
Lemma run_sc_ok l : forall last, run_sc l last = StOk -> (l = [] /\ last = None) \/ authenticated l.
Proof.
  induction l as [|a rest IH]; intros last; simpl.
  - destruct last; [discriminate | auto].
  - destruct (a_out a) as [|e|v] eqn:E.
    + intros _. right. apply auth_here. exact E.
    + rewrite is_arg_occurs.
      destruct (occurs (TKind KArgument) e || a_fallback a) eqn:F; [|discriminate].
      intro H. right. destruct (IH _ H) as [[_ N]|A]; [discriminate|].
      eapply auth_next; eauto. apply orb_true_iff in F. exact F.
    + discriminate.
Qed.

Lemma authenticated_run_sc l : authenticated l -> forall last, run_sc l last = StOk.
Proof.
  induction 1 as [a rest E|a rest e E F _ IH]; intros last; simpl; rewrite E; [reflexivity|].
  rewrite is_arg_occurs. destruct F as [F|F]; rewrite F; simpl; rewrite ?orb_true_r; apply IH.
Qed.

(** *** steps *)
Lemma step_exec_ok s : step_exec s = Ok -> cond_false (s_if s) \/ (cond_true (s_if s) /\ s_out s = Ok).
Proof.
  unfold step_exec, can_execute, cond_false, cond_true.
  destruct (s_if s) as [[[|]|e|v]|]; simpl; try discriminate; auto.
  rewrite is_occurs. destruct (occurs TEval e) eqn:E; [|discriminate]. intros _. left. right. eauto.
Qed.

Lemma run_steps_ok l : run_steps l = StOk -> Forall step_passed l.
Proof.
  induction l as [|s rest IH]; simpl; [constructor|].
  destruct (step_exec s) as [|e|v] eqn:E.
  - intro H. constructor; [right; apply step_exec_ok; exact E | auto].
  - destruct (s_continue s) eqn:C; [|discriminate]. intro H. constructor; [left; exact C | auto].
  - discriminate.
Qed.

(** a step that cannot panic *)
Definition step_quiet (s : step) : Prop :=
  (forall v, s_if s <> Some (CPanics v)) /\ (cond_true (s_if s) -> forall v, s_out s <> Panics v).

Lemma step_quiet_no_panic s v : step_quiet s -> step_exec s <> Panics v.
Proof.
  intros [Q1 Q2]. unfold step_exec, can_execute. unfold cond_true in Q2.
  destruct (s_if s) as [[[|]|e|v']|]; simpl; try discriminate.
  - apply Q2. auto.
  - destruct (is_ TEval e); discriminate.
  - exfalso. eapply Q1. reflexivity.
  - apply Q2. auto.
Qed.

Lemma step_passed_exec s : step_passed s -> step_quiet s ->
  step_exec s = Ok \/ (s_continue s = true /\ exists e, step_exec s = Fail e).
Proof.
  intros P Q. destruct (step_exec s) as [|e|v] eqn:E; [auto| |exfalso; eapply step_quiet_no_panic; eauto].
  right. split; [|eauto].
  destruct P as [P|[P|[P1 P2]]]; [exact P| |]; exfalso; unfold step_exec, can_execute in E.
  - destruct P as [P|(e' & P & P')]; rewrite P in E; [discriminate|].
    rewrite is_occurs, P' in E. discriminate.
  - destruct P1 as [P1|P1]; rewrite P1 in E; congruence.
Qed.

Lemma passed_run_steps l : Forall step_passed l -> Forall step_quiet l -> run_steps l = StOk.
Proof.
  induction 1 as [|s rest P _ IH]; intro Q; simpl; [reflexivity|].
  inversion Q as [|? ? Q1 Q2]; subst.
  destruct (step_passed_exec s P Q1) as [E|[C (e & E)]]; rewrite E; [auto|]. rewrite C. auto.
Qed.

(** *** the error pipeline cannot make a failure disappear *)
Lemma mech_exec_records m cause : hd_ret (mech_exec m cause) = None -> hd_pipeline (mech_exec m cause) <> None.
Proof. destruct m as [|code [url|]|realm]; simpl; intro H; discriminate. Qed.

(** the per-kind reading [handler_records] is the semantic one *)
Lemma handler_records_sem h : handler_records h <-> records (h_sem (e_kind h)).
Proof.
  unfold handler_records, records. destruct (e_kind h) as [m|e|v| |f]; simpl.
  - split; [|auto]. intros _ cause ret p E N. injection E as E1 E2. subst ret. rewrite <- E2.
    apply mech_exec_records. exact N.
  - split; [|auto]. intros _ cause ret p E ->. discriminate.
  - split; [|auto]. intros _ cause ret p E. discriminate.
  - split; [contradiction|]. intro H. apply (H (Sentinel KInternal) None None); reflexivity.
  - tauto.
Qed.

Lemma eh_exec_records h cause ret p :
  handler_records h -> eh_exec h cause = EhRet ret p -> ret = None -> p <> None.
Proof.
  intros R. apply handler_records_sem in R. unfold eh_exec.
  destruct (can_execute (e_if h)); try (intros E; inversion E; discriminate).
  apply R.
Qed.

Lemma run_eh_records l cause ret p :
  Forall handler_records l -> run_eh l cause = EhRet ret p -> ret = None -> p <> None.
Proof.
  induction l as [|h rest IH]; simpl; intros R.
  - intros H; inversion H; subst. discriminate.
  - inversion R as [|? ? R1 R2]; subst.
    destruct (eh_exec h cause) as [[e|] p'|v] eqn:E.
    + destruct (is_ (TKind (KOther 99)) e); [apply IH; exact R2|].
      intros H; inversion H; subst. discriminate.
    + intros H N; inversion H; subst. eapply eh_exec_records; eauto.
    + discriminate.
Qed.

(** *** error values that come out of a rule carry only the redirect codes that went in *)
Lemma good_render_failed : good_err render_failed.
Proof. apply redirects_not_success_chain2; apply redirects_not_success_leaf; exact I. Qed.

Lemma good_not_applicable : good_err not_applicable.
Proof. apply redirects_not_success_leaf; exact I. Qed.

Lemma can_execute_good c :
  good_cond c ->
  match can_execute c with CondFail e => good_err e | CondPanic v => good_panic v | _ => True end.
Proof.
  destruct c as [[[|]|e|v]|]; simpl; auto. destruct (is_ TEval e); simpl; auto.
Qed.

Lemma run_sc_good l : forall last,
  Forall (fun a => good_outcome (a_out a)) l -> good_opt last ->
  match run_sc l last with StOk => True | StFail e => good_err e | StPanic v => good_panic v end.
Proof.
  induction l as [|a rest IH]; intros last G L; simpl.
  - destruct last; auto.
  - inversion G as [|? ? G1 G2]; subst. destruct (a_out a) as [|e|v]; simpl in G1; auto.
    destruct (is_ (TKind KArgument) e || a_fallback a); [apply IH; auto | exact G1].
Qed.

Lemma step_exec_good s : good_step s -> good_outcome (step_exec s).
Proof.
  intros [G1 G2]. unfold step_exec. pose proof (can_execute_good _ G1) as C.
  destruct (can_execute (s_if s)); simpl; auto.
Qed.

Lemma run_steps_good l : Forall good_step l ->
  match run_steps l with StOk => True | StFail e => good_err e | StPanic v => good_panic v end.
Proof.
  induction 1 as [|s rest G _ IH]; simpl; [exact I|].
  pose proof (step_exec_good s G) as E. destruct (step_exec s) as [|e|v]; simpl in E; auto.
  destruct (s_continue s); auto.
Qed.

Lemma mech_exec_good m cause :
  good_err cause -> match m with MRedirect code _ => success_like (redirect_status code) = false | _ => True end ->
  good_opt (hd_ret (mech_exec m cause)) /\ good_opt (hd_pipeline (mech_exec m cause)).
Proof.
  intros Gc Gm. destruct m as [|code [url|]|realm]; simpl; repeat split; auto.
  - intros z Hz. simpl in Hz. destruct Hz as [Hz|[]]. subst. exact Gm.
  - apply good_render_failed.
  - apply redirects_not_success_leaf. exact I.
Qed.

Lemma eh_exec_good h cause : good_eh h -> good_err cause -> good_eh_res (eh_exec h cause).
Proof.
  intros [G1 G2] Gc. unfold eh_exec. pose proof (can_execute_good _ G1) as C.
  destruct (can_execute (e_if h)); simpl; auto.
  - destruct (e_kind h) as [m|e|v| |f]; simpl; auto.
    apply mech_exec_good; [exact Gc|]. destruct m; auto.
  - split; [apply good_not_applicable | exact I].
Qed.

Lemma run_eh_good l cause : Forall good_eh l -> good_err cause -> good_eh_res (run_eh l cause).
Proof.
  induction 1 as [|h rest G _ IH]; intro Gc; simpl; [split; [exact Gc | exact I]|].
  pose proof (eh_exec_good h cause G Gc) as E.
  destruct (eh_exec h cause) as [[e|] p|v]; auto.
  destruct (is_ (TKind (KOther 99)) e); [apply IH; exact Gc | exact E].
Qed.

Definition good_res (x : rule_res) : Prop :=
  match x with ROk => True | RErr ret p => good_opt ret /\ good_opt p | RPanic v => good_panic v end.

Lemma after_failure_good r st k :
  Forall good_eh (eh r) ->
  match st with StOk => True | StFail e => good_err e | StPanic v => good_panic v end ->
  good_res k -> good_res (after_failure r st k).
Proof.
  intros Ge Gs Gk. destruct st as [|e|v]; simpl; auto.
  pose proof (run_eh_good (eh r) e Ge Gs) as E. destruct (run_eh (eh r) e); simpl; auto.
Qed.

Lemma good_encoded_slash_error : good_err encoded_slash_error.
Proof.
  intros z Hz. unfold encoded_slash_error, redirect_codes in Hz. simpl in Hz. contradiction.
Qed.

Lemma run_rule_good en r q : redirects_ok r -> good_res (run_rule en r q).
Proof.
  intros (G1 & G2 & G3 & G4). unfold run_rule.
  destruct (slash_rejected en r q); [split; [apply good_encoded_slash_error | exact I]|].
  apply after_failure_good; [exact G4 | apply run_sc_good; [auto | exact I] |].
  apply after_failure_good; [exact G4 | apply run_steps_good; auto |].
  apply after_failure_good; [exact G4 | apply run_steps_good; auto | exact I].
Qed.

(** *** a failure is answered by a non-success response (C12), nothing reaches the upstream *)
Lemma fail_answer_non_success en c s :
  overrides_not_success (c_respond c) -> scenario_redirects_not_success s -> non_success (fail_answer en c s).
Proof.
  intros HO HS. destruct (never_success_stack (c_respond c) o0 s HO HS) as [H G].
  unfold fail_answer.
  destruct en; unfold of_hfinal, of_gfinal.
  - destruct (http_respond (c_respond c) o0 s); simpl; auto. contradiction.
  - destruct (http_respond (c_respond c) o0 s); simpl; auto. contradiction.
  - destruct (grpc_respond (c_respond c) o0 s); simpl; auto. destruct G; auto.
Qed.

Lemma good_no_rule_error : good_err no_rule_error.
Proof. intros z Hz. unfold no_rule_error, redirect_codes in Hz. simpl in Hz. contradiction. Qed.

Lemma good_no_upstream_error : good_err no_upstream_error.
Proof. intros z Hz. unfold no_upstream_error, redirect_codes in Hz. simpl in Hz. contradiction. Qed.

Lemma after_failure_ROk r st k : after_failure r st k = ROk -> st = StOk /\ k = ROk.
Proof.
  destruct st as [|e|v]; simpl; [auto| |discriminate]. destruct (run_eh (eh r) e); discriminate.
Qed.

Lemma run_rule_ROk en r q : run_rule en r q = ROk ->
  slash_rejected en r q = false /\ run_sc (sc r) None = StOk /\ run_steps (sh r) = StOk /\ run_steps (fi r) = StOk.
Proof.
  unfold run_rule. destruct (slash_rejected en r q); [discriminate|].
  intro H. apply after_failure_ROk in H as [H1 H]. apply after_failure_ROk in H as [H2 H].
  apply after_failure_ROk in H as [H3 _]. auto.
Qed.

Lemma run_rule_ROk_succeeded en r q : sc r <> [] -> run_rule en r q = ROk -> pipeline_succeeded r.
Proof.
  intros N H. apply run_rule_ROk in H as (_ & H1 & H2 & H3).
  split; [|split; apply run_steps_ok; assumption].
  destruct (run_sc_ok _ _ H1) as [[E _]|A]; [contradiction | exact A].
Qed.

Lemma after_failure_vetoes r st k :
  handlers_record r -> (forall ret p, k = RErr ret p -> ret = None -> p <> None) ->
  forall ret p, after_failure r st k = RErr ret p -> ret = None -> p <> None.
Proof.
  intros R K ret p. destruct st as [|e|v]; simpl; [apply K| |discriminate].
  destruct (run_eh (eh r) e) as [ret' p'|v] eqn:E; [|discriminate].
  intro H; inversion H; subst. eapply run_eh_records; eauto.
Qed.

Lemma run_rule_vetoes en r q ret p :
  handlers_record r -> run_rule en r q = RErr ret p -> ret = None -> p <> None.
Proof.
  intro R. unfold run_rule. destruct (slash_rejected en r q); [intros H; inversion H; discriminate|].
  apply after_failure_vetoes; [exact R|]. apply after_failure_vetoes; [exact R|].
  apply after_failure_vetoes; [exact R|]. discriminate.
Qed.

(** *** the answer of a rule that did not complete *)
Lemma serve_rule_failed en c r q :
  sane c r -> run_rule en r q <> ROk -> non_success (serve_rule en c r q).
Proof.
  intros (HO & HR & _ & HH) N. unfold serve_rule.
  pose proof (run_rule_good en r q HR) as G.
  pose proof (run_rule_vetoes en r q) as V.
  destruct (run_rule en r q) as [|[e|] [p|]|v]; [contradiction| | | | |]; simpl in G.
  - apply fail_answer_non_success; [exact HO | exact (proj1 G)].
  - apply fail_answer_non_success; [exact HO | exact (proj1 G)].
  - apply fail_answer_non_success; [exact HO | exact (proj2 G)].
  - exfalso. eapply V; eauto.
  - apply fail_answer_non_success; [exact HO | exact G].
Qed.

(** a positive answer and a non-success response exclude each other *)
Lemma non_success_not_positive en c a :
  (en = Decision -> success_like (accepted_code c) = true) -> non_success a -> ~ positive en c a.
Proof.
  intros HA N P. destruct en, a; simpl in *; try contradiction; try lia.
  destruct N as [N _]. subst. rewrite (HA eq_refl) in N. discriminate.
Qed.

Lemma positive_shape_positive en c a : positive_shape en c a -> positive en c a.
Proof.
  destruct en; simpl.
  - intros ->. reflexivity.
  - intros ->. lia.
  - intros ->. exact I.
Qed.

Lemma hits_with_hits n a : match a with AHttp _ _ | AAbort _ => hits_of (with_hits n a) = n | _ => True end.
Proof. destruct a; simpl; auto. Qed.

Lemma fail_answer_http_shape en c sc : en <> Envoy ->
  match fail_answer en c sc with AHttp _ _ | AAbort _ => True | _ => False end.
Proof.
  intro N. unfold fail_answer, of_hfinal. destruct en; [| |contradiction];
    destruct (http_respond (c_respond c) o0 sc); exact I.
Qed.

Lemma positive_answer_cases en c b up :
  overrides_not_success (c_respond c) ->
  positive_shape en c (positive_answer en c b up) \/ non_success (positive_answer en c b up).
Proof.
  intro HO. destruct en; unfold positive_answer, positive_shape; auto.
  - destruct (valid_code (accepted_code c)); [auto|].
    right. apply fail_answer_non_success; [exact HO | exact I].
  - destruct b.
    + left. destruct up as [s|]; [reflexivity|].
      pose proof (fail_answer_http_shape Proxy c (ScError upstream_error)) as F.
      pose proof (hits_with_hits 1 (fail_answer Proxy c (ScError upstream_error))) as H.
      destruct (fail_answer Proxy c (ScError upstream_error)); try exact H; exfalso; apply F; discriminate.
    + right. apply fail_answer_non_success; [exact HO | apply good_no_upstream_error].
Qed.

(** ** C01_positive_only_if *)
Theorem positive_only_if en c l q :
  (forall r, applied l r -> sane c r) -> (en = Decision -> success_like (accepted_code c) = true) ->
  overrides_not_success (c_respond c) ->
  positive en c (serve en c l q) ->
  exists r, applied l r /\ pipeline_completed r.
Proof.
  intros HS HA HO P.
  assert (RULE : forall r, applied l r -> serve en c l q = serve_rule en c r q -> pipeline_completed r).
  { intros r Ap E. rewrite E in P. pose proof (HS r Ap) as S.
    destruct (run_rule en r q) eqn:RR;
      try (exfalso; eapply (non_success_not_positive en c); [exact HA| |exact P];
           apply serve_rule_failed; [exact S | congruence]).
    destruct S as (_ & _ & N & _). apply succeeded_completed. eapply run_rule_ROk_succeeded; eauto. }
  destruct l as [r|r|]; simpl in *.
  - exists r. split; [left; reflexivity | apply RULE; [left|]; reflexivity].
  - exists r. split; [right; reflexivity | apply RULE; [right|]; reflexivity].
  - exfalso. eapply (non_success_not_positive en c); [exact HA| |exact P].
    apply fail_answer_non_success; [exact HO | apply good_no_rule_error].
Qed.

(** ** C01_failed_never_reaches_upstream *)
Theorem failed_never_reaches_upstream en c l q :
  (forall r, applied l r -> sane c r) -> overrides_not_success (c_respond c) ->
  (forall r, applied l r -> ~ pipeline_completed r) ->
  non_success (serve en c l q).
Proof.
  intros HS HO NS.
  assert (RULE : forall r, applied l r -> non_success (serve_rule en c r q)).
  { intros r Ap. pose proof (HS r Ap) as S. apply serve_rule_failed; [exact S|].
    intro RR. apply (NS r Ap). destruct S as (_ & _ & N & _).
    apply succeeded_completed. eapply run_rule_ROk_succeeded; eauto. }
  destruct l as [r|r|]; simpl.
  - apply RULE. left. reflexivity.
  - apply RULE. right. reflexivity.
  - apply fail_answer_non_success; [exact HO | apply good_no_rule_error].
Qed.

(** ** C01_answer_dichotomy: there is no third kind of answer *)
Theorem answer_dichotomy en c l q :
  (forall r, applied l r -> sane c r) -> overrides_not_success (c_respond c) ->
  non_success (serve en c l q) \/
  (exists r, applied l r /\ pipeline_completed r /\ positive_shape en c (serve en c l q)).
Proof.
  intros HS HO.
  assert (RULE : forall r, applied l r -> serve en c l q = serve_rule en c r q ->
            non_success (serve en c l q) \/ (pipeline_completed r /\ positive_shape en c (serve en c l q))).
  { intros r Ap E. pose proof (HS r Ap) as S. rewrite E.
    destruct (run_rule en r q) eqn:RR;
      try (left; apply serve_rule_failed; [exact S | congruence]).
    unfold serve_rule. rewrite RR.
    destruct (positive_answer_cases en c (backend r) (q_upstream q) HO) as [P|P]; [right | left; exact P].
    split; [|exact P]. destruct S as (_ & _ & N & _).
    apply succeeded_completed. eapply run_rule_ROk_succeeded; eauto. }
  destruct l as [r|r|]; simpl.
  - destruct (RULE r (or_introl eq_refl) eq_refl) as [H|[H1 H2]]; [left; exact H|].
    right. exists r. split; [left; reflexivity | split; assumption].
  - destruct (RULE r (or_intror eq_refl) eq_refl) as [H|[H1 H2]]; [left; exact H|].
    right. exists r. split; [right; reflexivity | split; assumption].
  - left. apply fail_answer_non_success; [exact HO | apply good_no_rule_error].
Qed.

(** ** C01_error_handler_cannot_rescue.  The handlers are arbitrary ([EhAny f] with any
    [f]), each behind any condition; all that is assumed of them is [records] (and
    that they do not invent success redirects).  The core fact is about the error
    pipeline alone: it never reports "handled" with nothing recorded. *)
Theorem error_pipeline_never_forgets ehs cause ret p :
  Forall handler_records ehs -> run_eh ehs cause = EhRet ret p -> ret = None -> p <> None.
Proof. apply run_eh_records. Qed.

Definition with_eh (r : rule) (l : list ehstep) : rule :=
  {| sc := sc r; sh := sh r; fi := fi r; eh := l; backend := backend r; slashes_off := slashes_off r |}.

Theorem error_handler_cannot_rescue en c r q ehs :
  overrides_not_success (c_respond c) -> redirects_ok r -> sc r <> [] ->
  Forall good_eh ehs -> Forall handler_records ehs ->
  ~ pipeline_completed r ->
  non_success (serve en c (Matched (with_eh r ehs)) q) /\ non_success (serve en c (Default (with_eh r ehs)) q).
Proof.
  intros HO (G1 & G2 & G3 & _) N GE HR NS.
  assert (S : sane c (with_eh r ehs)).
  { split; [exact HO|]. split; [split; [exact G1|split; [exact G2|split; [exact G3|exact GE]]]|].
    split; [exact N | exact HR]. }
  assert (NR : run_rule en (with_eh r ehs) q <> ROk).
  { intro RR. apply NS. apply succeeded_completed.
    exact (run_rule_ROk_succeeded en (with_eh r ehs) q N RR). }
  split; simpl; apply serve_rule_failed; assumption.
Qed.

(** heimdall's three error handler mechanisms (as modelled in C12 and tied to the
    code by the three correspondence streams of this check and by C12's) record
    before they report success *)
Theorem real_mechanisms_record m : records (h_sem (EhReal m)).
Proof. apply (handler_records_sem {| e_if := None; e_kind := EhReal m |}). exact I. Qed.

(** the veto rests on that: a handler that returned nil without recording would
    turn the failure into a positive answer *)
Definition silent_rule : rule :=
  {| sc := [{| a_out := Fail (Sentinel KAuthentication); a_fallback := false |}]; sh := []; fi := [];
     eh := [{| e_if := None; e_kind := EhSilent |}]; backend := true; slashes_off := false |}.
Definition plain_config : config :=
  {| c_respond := {| c_verbose := false; ov_authn := 0; ov_authz := 0; ov_comm := 0; ov_precond := 0;
                     ov_norule := 0; ov_internal := 0 |}; c_accepted := 0 |}.
Definition plain_request : request := {| q_encoded_slash := false; q_upstream := UpOk 200 |}.

Theorem silent_handler_would_rescue :
  ~ pipeline_completed silent_rule /\ ~ handlers_record silent_rule /\
  serve Decision plain_config (Matched silent_rule) plain_request = AHttp 200 0 /\
  serve Envoy plain_config (Matched silent_rule) plain_request = AEnvoyOk.
Proof.
  split; [|split; [|split; reflexivity]].
  - intro P. apply completed_b_spec in P. discriminate.
  - intro R. inversion R as [|? ? H _]. exact H.
Qed.

(** ** C01_reached_panic_is_non_success: "a panic is reached", stated on the rule
    alone (no function of the model).

    [step_goes_on]: the step neither panics nor stops its stage: skipped, ran
    without error, or failed while marked continue-on-error. *)
Definition cond_error (c : option cond) (e : err) : Prop := c = Some (CErr e) /\ occurs TEval e = false.
Definition step_fails_with (s : step) (e : err) : Prop :=
  (cond_true (s_if s) /\ s_out s = Fail e) \/ cond_error (s_if s) e.
Definition step_goes_on (s : step) : Prop :=
  cond_false (s_if s) \/ (cond_true (s_if s) /\ s_out s = Ok) \/ (s_continue s = true /\ exists e, step_fails_with s e).
Definition step_panics (s : step) (v : option err) : Prop :=
  s_if s = Some (CPanics v) \/ (cond_true (s_if s) /\ s_out s = Panics v).
Definition step_stops_with (s : step) (e : err) : Prop := s_continue s = false /\ step_fails_with s e.

(** the first step that does not "go on" panics / stops the stage with an error *)
Definition stage_panics (l : list step) (v : option err) : Prop :=
  exists l1 s l2, l = l1 ++ s :: l2 /\ Forall step_goes_on l1 /\ step_panics s v.
Definition stage_fails (l : list step) (e : err) : Prop :=
  exists l1 s l2, l = l1 ++ s :: l2 /\ Forall step_goes_on l1 /\ step_stops_with s e.

(** authenticators: everyone in front failed and was allowed to fall back *)
Definition fell_back (a : authn) : Prop := exists e, a_out a = Fail e /\ may_fall_back a e.
Definition sc_panics (l : list authn) (v : option err) : Prop :=
  exists l1 a l2, l = l1 ++ a :: l2 /\ Forall fell_back l1 /\ a_out a = Panics v.
Definition sc_fails (l : list authn) (e : err) : Prop :=
  exists l1 a l2, l = l1 ++ a :: l2 /\ Forall fell_back l1 /\ a_out a = Fail e /\ (l2 = [] \/ ~ may_fall_back a e).

(** the execute stages end in a panic / in the error [e] *)
Definition execute_panics (r : rule) (v : option err) : Prop :=
  sc_panics (sc r) v \/
  (authenticated (sc r) /\ stage_panics (sh r) v) \/
  (authenticated (sc r) /\ Forall step_goes_on (sh r) /\ stage_panics (fi r) v).
Definition execute_fails (r : rule) (e : err) : Prop :=
  sc_fails (sc r) e \/
  (authenticated (sc r) /\ stage_fails (sh r) e) \/
  (authenticated (sc r) /\ Forall step_goes_on (sh r) /\ stage_fails (fi r) e).

(** the error pipeline: every handler in front was not applicable (its condition
    evaluated to false); the first applicable one panics, or its condition does *)
Definition eh_panics (l : list ehstep) (cause : err) (v : option err) : Prop :=
  exists l1 h l2, l = l1 ++ h :: l2 /\ Forall (fun x => cond_false (e_if x)) l1 /\
    (e_if h = Some (CPanics v) \/ (cond_true (e_if h) /\ h_sem (e_kind h) cause = EhPanic v)).

Definition reaches_panic (r : rule) (v : option err) : Prop :=
  execute_panics r v \/ exists e, execute_fails r e /\ eh_panics (eh r) e v.

Lemma step_goes_on_exec s : step_goes_on s ->
  step_exec s = Ok \/ (s_continue s = true /\ exists e, step_exec s = Fail e).
Proof.
  unfold step_goes_on, step_exec, can_execute.
  intros [F|[[T O]|[C (e & [[T O]|[E1 E2]])]]].
  - left. destruct F as [F|(e & F & F')]; rewrite F; [reflexivity|]. rewrite is_occurs, F'. reflexivity.
  - left. destruct T as [T|T]; rewrite T; exact O.
  - right. split; [exact C|]. exists e. destruct T as [T|T]; rewrite T; exact O.
  - right. split; [exact C|]. exists e. rewrite E1, is_occurs, E2. reflexivity.
Qed.

Lemma run_steps_app_goes_on l1 l2 : Forall step_goes_on l1 -> run_steps (l1 ++ l2) = run_steps l2.
Proof.
  induction 1 as [|s rest G _ IH]; simpl; [reflexivity|].
  destruct (step_goes_on_exec s G) as [E|[C (e & E)]]; rewrite E; [exact IH|]. rewrite C. exact IH.
Qed.

Lemma goes_on_run_steps l : Forall step_goes_on l -> run_steps l = StOk.
Proof. intro G. rewrite <- (app_nil_r l). rewrite run_steps_app_goes_on; [reflexivity | exact G]. Qed.

Lemma step_panics_exec s v : step_panics s v -> step_exec s = Panics v.
Proof.
  unfold step_panics, step_exec, can_execute. intros [E|[[T|T] O]]; [rewrite E | rewrite T | rewrite T]; auto.
Qed.

Lemma step_fails_exec s e : step_fails_with s e -> step_exec s = Fail e.
Proof.
  unfold step_fails_with, step_exec, can_execute, cond_error.
  intros [[[T|T] O]|[E1 E2]]; [rewrite T | rewrite T | rewrite E1, is_occurs, E2]; auto.
Qed.

Lemma stage_panics_run l v : stage_panics l v -> run_steps l = StPanic v.
Proof.
  intros (l1 & s & l2 & -> & G & P). rewrite run_steps_app_goes_on by exact G.
  simpl. rewrite (step_panics_exec s v P). reflexivity.
Qed.

Lemma stage_fails_run l e : stage_fails l e -> run_steps l = StFail e.
Proof.
  intros (l1 & s & l2 & -> & G & C & F). rewrite run_steps_app_goes_on by exact G.
  simpl. rewrite (step_fails_exec s e F), C. reflexivity.
Qed.

Lemma run_sc_app_fell_back l1 l2 : Forall fell_back l1 -> l1 <> [] ->
  exists e, forall last, run_sc (l1 ++ l2) last = run_sc l2 (Some e).
Proof.
  induction 1 as [|a rest (e & E & F) _ IH]; intro N; [contradiction|].
  assert (STEP : forall last, run_sc ((a :: rest) ++ l2) last = run_sc (rest ++ l2) (Some e)).
  { intro last. simpl. rewrite E, is_arg_occurs. destruct F as [F|F]; rewrite F; simpl; rewrite ?orb_true_r; reflexivity. }
  destruct rest as [|b rest'].
  - exists e. exact STEP.
  - destruct IH as (e' & IH); [discriminate|]. exists e'. intro last. rewrite STEP. apply IH.
Qed.

Lemma sc_panics_run l v : sc_panics l v -> run_sc l None = StPanic v.
Proof.
  intros (l1 & a & l2 & -> & G & P).
  destruct l1 as [|b l1'].
  - simpl. rewrite P. reflexivity.
  - destruct (run_sc_app_fell_back (b :: l1') (a :: l2) G) as (e & H); [discriminate|].
    rewrite H. simpl. rewrite P. reflexivity.
Qed.

Lemma sc_fails_run l e : sc_fails l e -> run_sc l None = StFail e.
Proof.
  intros (l1 & a & l2 & -> & G & F & L).
  assert (LAST : forall last, run_sc (a :: l2) last = StFail e).
  { intro last. simpl. rewrite F, is_arg_occurs.
    destruct L as [-> | NF].
    - destruct (occurs (TKind KArgument) e || a_fallback a); reflexivity.
    - destruct (occurs (TKind KArgument) e || a_fallback a) eqn:B; [|reflexivity].
      exfalso. apply NF. apply orb_true_iff in B. exact B. }
  destruct l1 as [|b l1']; [apply LAST|].
  destruct (run_sc_app_fell_back (b :: l1') (a :: l2) G) as (e' & H); [discriminate|].
  rewrite H. apply LAST.
Qed.

Lemma run_eh_app_not_applicable l1 l2 cause :
  Forall (fun x => cond_false (e_if x)) l1 -> run_eh (l1 ++ l2) cause = run_eh l2 cause.
Proof.
  induction 1 as [|h rest F _ IH]; simpl; [reflexivity|].
  assert (E : eh_exec h cause = EhRet (Some not_applicable) None).
  { unfold eh_exec, can_execute. destruct F as [F|(e & F & F')]; rewrite F; [reflexivity|].
    rewrite is_occurs, F'. reflexivity. }
  rewrite E. simpl. exact IH.
Qed.

Lemma eh_panics_run l cause v : eh_panics l cause v -> run_eh l cause = EhPanic v.
Proof.
  intros (l1 & h & l2 & -> & G & P). rewrite run_eh_app_not_applicable by exact G. simpl.
  assert (E : eh_exec h cause = EhPanic v).
  { unfold eh_exec, can_execute. destruct P as [P|[[T|T] P]]; [rewrite P | rewrite T | rewrite T]; auto. }
  rewrite E. reflexivity.
Qed.

Lemma reaches_panic_run en r q v :
  slash_rejected en r q = false -> reaches_panic r v -> run_rule en r q = RPanic v.
Proof.
  intros SL [X|(e & X & H)]; unfold run_rule; rewrite SL.
  - destruct X as [X|[(A & X)|(A & G & X)]].
    + rewrite (sc_panics_run _ _ X). reflexivity.
    + rewrite (authenticated_run_sc _ A), (stage_panics_run _ _ X). reflexivity.
    + rewrite (authenticated_run_sc _ A), (goes_on_run_steps _ G), (stage_panics_run _ _ X). reflexivity.
  - pose proof (eh_panics_run _ _ _ H) as E.
    destruct X as [X|[(A & X)|(A & G & X)]].
    + rewrite (sc_fails_run _ _ X). simpl. rewrite E. reflexivity.
    + rewrite (authenticated_run_sc _ A), (stage_fails_run _ _ X). simpl. rewrite E. reflexivity.
    + rewrite (authenticated_run_sc _ A), (goes_on_run_steps _ G), (stage_fails_run _ _ X). simpl. rewrite E. reflexivity.
Qed.

Theorem reached_panic_is_non_success en c l r q v :
  applied l r -> sane c r -> reaches_panic r v ->
  non_success (serve en c l q) /\
  (en = Envoy -> slash_rejected en r q = false -> serve en c l q = AEnvoyStatus GInternal) /\
  (en <> Envoy -> slash_rejected en r q = false -> v = None ->
     valid_code (http_code (ov_internal (c_respond c)) 500) = true ->
     serve en c l q = AHttp (http_code (ov_internal (c_respond c)) 500) 0).
Proof.
  intros Ap S P.
  assert (E : serve en c l q = serve_rule en c r q) by (destruct Ap as [-> | ->]; reflexivity).
  rewrite E. split; [|split].
  - apply serve_rule_failed; [exact S|]. destruct (slash_rejected en r q) eqn:SL.
    + unfold run_rule. rewrite SL. discriminate.
    + rewrite (reaches_panic_run en r q v SL P). discriminate.
  - intros -> SL. unfold serve_rule. rewrite (reaches_panic_run _ r q v SL P). reflexivity.
  - intros NE SL -> V. unfold serve_rule. rewrite (reaches_panic_run en r q None SL P).
    destruct (proj1 (panic_response (c_respond c) o0) V) as (h & b & EH).
    destruct en; [| |contradiction]; simpl; rewrite EH; reflexivity.
Qed.

(** a panicking continue-on-error step is a reached panic even though the letter of
    [pipeline_completed] exempts that step: the answer is a non-success all the same *)
Definition panicking_continue_rule : rule :=
  {| sc := [{| a_out := Ok; a_fallback := false |}];
     sh := [{| s_if := None; s_out := Panics None; s_continue := true |}]; fi := []; eh := [];
     backend := true; slashes_off := false |}.

Example continue_step_panic_is_reached :
  pipeline_completed panicking_continue_rule /\ reaches_panic panicking_continue_rule None /\
  serve Proxy plain_config (Matched panicking_continue_rule) plain_request = AHttp 500 0.
Proof.
  split; [apply completed_b_spec; reflexivity|]. split; [|reflexivity].
  left. right. left. split; [apply auth_here; reflexivity|].
  exists [], {| s_if := None; s_out := Panics None; s_continue := true |}, [].
  split; [reflexivity|]. split; [constructor|]. right. split; [left|]; reflexivity.
Qed.

(** the reading of the statement for continue-on-error steps: the evaluation error
    of such a step's condition is swallowed like the step's own error *)
Definition swallowed_condition_rule : rule :=
  {| sc := [{| a_out := Ok; a_fallback := false |}];
     sh := [{| s_if := Some (CErr (Foreign 1)); s_out := Ok; s_continue := true |}]; fi := []; eh := [];
     backend := true; slashes_off := false |}.

Example continue_step_condition_error_is_swallowed :
  pipeline_completed swallowed_condition_rule /\
  serve Decision plain_config (Matched swallowed_condition_rule) plain_request = AHttp 200 0 /\
  serve Proxy plain_config (Matched swallowed_condition_rule) plain_request = AHttp 200 1.
Proof. split; [apply completed_b_spec; reflexivity | split; reflexivity]. Qed.

(** ** C01_success_is_positive (converse: liveness; uses the C04 reading of fallback) *)
Definition quiet (r : rule) : Prop := Forall step_quiet (sh r) /\ Forall step_quiet (fi r).

Lemma succeeded_run_rule en r q :
  pipeline_succeeded r -> quiet r -> slash_rejected en r q = false -> run_rule en r q = ROk.
Proof.
  intros (A & B & C) (Q1 & Q2) SL. unfold run_rule. rewrite SL.
  rewrite (authenticated_run_sc _ A None), (passed_run_steps _ B Q1), (passed_run_steps _ C Q2). reflexivity.
Qed.

Theorem success_is_positive en c l r q :
  applied l r -> pipeline_succeeded r -> quiet r -> slash_rejected en r q = false ->
  (en = Decision -> valid_code (accepted_code c) = true) -> (en = Proxy -> backend r = true) ->
  positive_shape en c (serve en c l q) /\ positive en c (serve en c l q) /\
  (en = Proxy -> forall s, q_upstream q = UpOk s -> serve en c l q = AHttp s 1).
Proof.
  intros Ap P Q SL HD HP.
  assert (E : serve en c l q = positive_answer en c (backend r) (q_upstream q)).
  { destruct Ap as [-> | ->]; simpl; unfold serve_rule; rewrite (succeeded_run_rule en r q P Q SL); reflexivity. }
  assert (SH : positive_shape en c (serve en c l q)).
  { rewrite E. destruct en; unfold positive_answer, positive_shape.
    - rewrite (HD eq_refl). reflexivity.
    - rewrite (HP eq_refl). destruct (q_upstream q) as [s|]; [reflexivity|].
      pose proof (fail_answer_http_shape Proxy c (ScError upstream_error)) as F.
      pose proof (hits_with_hits 1 (fail_answer Proxy c (ScError upstream_error))) as H.
      destruct (fail_answer Proxy c (ScError upstream_error)); try exact H; exfalso; apply F; discriminate.
    - reflexivity. }
  split; [exact SH|]. split; [apply positive_shape_positive; exact SH|].
  intros -> s U. rewrite E. unfold positive_answer. rewrite (HP eq_refl), U. reflexivity.
Qed.

(** ** the hypotheses are needed *)

(** a rule without authenticators (never produced by the rule factory) runs with a nil subject *)
Definition empty_rule : rule :=
  {| sc := []; sh := []; fi := []; eh := []; backend := true; slashes_off := false |}.

Theorem no_authenticator_is_positive :
  ~ pipeline_completed empty_rule /\
  serve Decision plain_config (Matched empty_rule) plain_request = AHttp 200 0 /\
  serve Proxy plain_config (Matched empty_rule) plain_request = AHttp 200 1 /\
  serve Envoy plain_config (Matched empty_rule) plain_request = AEnvoyOk.
Proof.
  split; [intro P; apply completed_b_spec in P; discriminate | repeat split; reflexivity].
Qed.

(** a redirect error handler with code 200 (no longer creatable, see below) would
    answer a failed pipeline with the accepted status of the decision service *)
Definition redirect200_rule : rule :=
  {| sc := [{| a_out := Fail (Sentinel KAuthentication); a_fallback := false |}]; sh := []; fi := [];
     eh := [{| e_if := None; e_kind := EhReal (MRedirect 200 (Some "http://idp"%string)) |}];
     backend := true; slashes_off := false |}.

Theorem success_redirect_is_positive :
  ~ pipeline_completed redirect200_rule /\ ~ redirects_ok redirect200_rule /\
  positive Decision plain_config (serve Decision plain_config (Matched redirect200_rule) plain_request).
Proof.
  split; [|split].
  - intro P. apply completed_b_spec in P. discriminate.
  - intros (_ & _ & _ & G). inversion G as [|? ? [_ H] _]. simpl in H. discriminate.
  - vm_compute. reflexivity.
Qed.

(** the part of [redirects_ok] that is still a live hypothesis: an error VALUE
    carrying a RedirectError with code 200, returned by a mechanism (here an
    authenticator) and passed through by an empty error pipeline, is answered with
    that status by both translators: the accepted status of the decision service,
    a DeniedHttpResponse with status 200 under Envoy *)
Definition redirect200_value_rule : rule :=
  {| sc := [{| a_out := Fail (Redirect 200 "http://elsewhere"%string); a_fallback := false |}]; sh := []; fi := [];
     eh := []; backend := true; slashes_off := false |}.

Theorem success_redirect_value_is_positive :
  ~ pipeline_completed redirect200_value_rule /\ ~ redirects_ok redirect200_value_rule /\
  eh redirect200_value_rule = [] /\ handlers_record redirect200_value_rule /\
  serve Decision plain_config (Matched redirect200_value_rule) plain_request = AHttp 200 0 /\
  positive Decision plain_config (serve Decision plain_config (Matched redirect200_value_rule) plain_request) /\
  serve Envoy plain_config (Matched redirect200_value_rule) plain_request = AEnvoyDenied GFailedPrecondition 200.
Proof.
  split; [intro P; apply completed_b_spec in P; discriminate|].
  split.
  { intros (G & _). inversion G as [|? ? H _]. simpl in H.
    assert (S : success_like 200 = false) by (apply H; simpl; auto). discriminate. }
  split; [reflexivity|]. split; [constructor|].
  split; [reflexivity|]. split; [reflexivity | reflexivity].
Qed.

(** ** what the loader guarantees of redirect handlers (fix: 6c5864d, C20-F1b):
    the code of a redirect handler that could be created is 0 (302) or in 300..399,
    so the redirect-code part of [good_eh] holds for every loaded redirect handler
    and [redirect200_rule] cannot be loaded any more *)
Definition loader_created (h : ehstep) : Prop :=
  match e_kind h with
  | EhReal (MRedirect code to) => create_redirect code to = Some (MRedirect code to)
  | _ => True
  end.

Theorem loader_redirect_never_success h :
  loader_created h -> good_cond (e_if h) ->
  match e_kind h with
  | EhFails e => good_err e | EhPanics v => good_panic v
  | EhAny f => forall cause, good_err cause -> good_eh_res (f cause)
  | _ => True
  end ->
  good_eh h /\
  match e_kind h with
  | EhReal (MRedirect code _) => 300 <= redirect_status code <= 399 /\ success_like (redirect_status code) = false
  | _ => True
  end.
Proof.
  unfold loader_created, good_eh. intros L G K.
  destruct (e_kind h) as [[|code to|realm]|e|v| |f]; auto.
  destruct (created_redirect_code (c_respond plain_config) o0 code to _ (Sentinel KInternal) L) as (_ & R & _ & S & _).
  auto.
Qed.

Theorem success_redirect_rule_not_loadable :
  ~ Forall loader_created (eh redirect200_rule).
Proof. intro F. inversion F as [|? ? H _]. unfold loader_created in H. simpl in H. discriminate. Qed.

(** ** non-vacuity: a pipeline with a falling-back authenticator, a skipped
    step, a failing continue-on-error step and a conditional error pipeline
    satisfies the hypotheses and completes; the same pipeline with a failing
    finalizer does not *)
Definition ex_rule (last : outcome) : rule :=
  {| sc := [{| a_out := Fail (Chain [Sentinel KAuthentication; WrapW (Sentinel KArgument)] false); a_fallback := false |};
            {| a_out := Fail (Sentinel KCommunication); a_fallback := true |};
            {| a_out := Ok; a_fallback := false |};
            {| a_out := Panics None; a_fallback := false |}];
     sh := [{| s_if := Some (CVal false); s_out := Fail (Sentinel KAuthorization); s_continue := false |};
            {| s_if := Some (CErr (WrapW EvalErr)); s_out := Panics None; s_continue := false |};
            {| s_if := None; s_out := Fail (Sentinel KAuthorization); s_continue := true |}];
     fi := [{| s_if := Some (CVal true); s_out := last; s_continue := false |}];
     eh := [{| e_if := Some (CVal false); e_kind := EhReal MDefault |};
            {| e_if := None; e_kind := EhReal (MRedirect 0 (Some "http://idp/login"%string)) |}];
     backend := true; slashes_off := true |}.

Example nonvacuous :
  sane plain_config (ex_rule Ok) /\ pipeline_succeeded (ex_rule Ok) /\ quiet (ex_rule Ok) /\
  serve Proxy plain_config (Matched (ex_rule Ok)) plain_request = AHttp 200 1 /\
  sane plain_config (ex_rule (Fail (Sentinel KInternal))) /\
  ~ pipeline_completed (ex_rule (Fail (Sentinel KInternal))) /\
  serve Proxy plain_config (Matched (ex_rule (Fail (Sentinel KInternal)))) plain_request = AHttp 302 0 /\
  serve Envoy plain_config (Default (ex_rule (Fail (Sentinel KInternal)))) plain_request
    = AEnvoyDenied GFailedPrecondition 302.
Proof.
  assert (GE : forall e, match e with Redirect _ _ | WrapW _ | JoinW _ | Chain _ _ => False | _ => True end -> good_err e)
    by (intros e H; apply redirects_not_success_leaf; exact H).
  assert (G1 : good_err (Chain [Sentinel KAuthentication; WrapW (Sentinel KArgument)] false))
    by (intros z Hz; simpl in Hz; contradiction).
  assert (G2 : good_err (WrapW EvalErr)) by (intros z Hz; simpl in Hz; contradiction).
  assert (SANE : forall o, good_outcome o -> sane plain_config (ex_rule o)).
  { intros o Go. split; [repeat split|split; [|split]].
    - repeat split; simpl; repeat constructor; simpl; auto.
    - discriminate.
    - repeat constructor. }
  split; [apply SANE; exact I|].
  split; [apply succeeded_b_spec; reflexivity|].
  split.
  { split; repeat constructor; simpl; try discriminate; unfold cond_true;
      try (intros [H|H]; discriminate). }
  split; [reflexivity|].
  split; [apply SANE; simpl; apply GE; exact I|].
  split; [intro P; apply completed_b_spec in P; discriminate|].
  split; reflexivity.
Qed.
