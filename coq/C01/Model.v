(** C01 — model of one request through heimdall: rule lookup, rule execution
    (authenticators, authorizers/contextualizers, finalizers, with conditions and
    continue-on-error), the error pipeline, the pipeline error recorded in the
    request context, the three Finalize implementations, error translation (the
    C12 model) and the recovery middlewares.

    Go sources transcribed (as they are):
    - internal/rules/rule_executor_impl.go Execute, repository_impl.go FindRule (default / no rule)
    - internal/rules/rule_impl.go Execute
    - internal/rules/composite_subject_creator.go, composite_subject_handler.go, composite_error_handler.go
    - internal/rules/conditional_subject_handler.go, conditional_error_handler.go
    - internal/rules/cel_execution_condition.go, default_execution_condition.go,
      mechanisms/cellib/expression.go CompiledExpression.Eval
    - internal/rules/mechanisms/errorhandlers/*.go (through C12.Model.mech_exec)
    - internal/handler/service/handler.go, decision|proxy/request_context.go Finalize,
      envoyextauth/grpcv3/handler.go + request_context.go Finalize
    - both error translators and recovery middlewares (through C12.Model)

    Not modelled: what mechanisms compute (their outcome is data: success, an
    error value, a panic), CEL evaluation (the program's result is data), rule
    matching (C02/C03; the lookup result is data), the reverse proxy transport
    (the upstream either answers with a status or drops the connection after it
    took the request, which is data of the request), the middlewares in front of
    the service handler (CORS is not configured, see the assumptions of the check). *)
From HV Require Import Base.Prelude Base.ErrChain C12.Model.
Local Open Scope Z_scope.

(** ** Pipelines *)

(** outcome of a mechanism's Execute: returns nil / returns an error / panics
    (with an error value or something else) *)
Inductive outcome := Ok | Fail (e : err) | Panics (v : option err).

Record authn := { a_out : outcome; a_fallback : bool }.   (* IsFallbackOnErrorAllowed *)

(** result of the CEL program of an `if`: a value, an evaluation error, a panic *)
Inductive cond := CVal (b : bool) | CErr (e : err) | CPanics (v : option err).

(** a step of the authorizer/contextualizer or finalizer stage: a
    conditionalSubjectHandler; [s_if = None] is the defaultExecutionCondition *)
Record step := { s_if : option cond; s_out : outcome; s_continue : bool }.

(** what an error handler's Execute does: the error it returns (None = nil)
    together with the pipeline error it recorded in the request context (None =
    none), or a panic *)
Inductive eh_res :=
| EhRet (ret : option err) (pipeline : option err)
| EhPanic (v : option err).

(** an error handler: the three real mechanisms; a stub that fails / panics; a
    HYPOTHETICAL handler that reports success (returns nil) without recording a
    pipeline error ([EhSilent]; no such mechanism exists in heimdall: the three
    real ones all call ctx.SetPipelineError before returning nil, see
    [C12.Model.mech_exec]); and, for the theorems only (never generated), ANY
    handler given by its semantics ([EhAny f]: what it returns / records / whether
    it panics as an arbitrary function of the cause), so that "no error handler can
    rescue" is not a statement about a closed list of handlers. *)
Inductive ehkind :=
| EhReal (m : mechanism) | EhFails (e : err) | EhPanics (v : option err) | EhSilent
| EhAny (f : err -> eh_res).
Record ehstep := { e_if : option cond; e_kind : ehkind }.

Record rule := {
  sc : list authn; sh : list step; fi : list step; eh : list ehstep;
  backend : bool;          (* forward_to present *)
  slashes_off : bool }.    (* allow_encoded_slashes: off *)

Inductive lookup := Matched (r : rule) | Default (r : rule) | NoRule.

Inductive entry := Decision | Proxy | Envoy.

(** service configuration: respond settings (C12) and the accepted code (0 = unset) *)
Record config := { c_respond : cfg; c_accepted : Z }.

(** what the upstream does with a forwarded request: answers with a status, or
    takes the request and drops the connection without answering *)
Inductive upstream_mode := UpOk (status : Z) | UpAbort.

(** the request, as far as this property is concerned.  Method, headers, body,
    credentials only matter through what the mechanisms and conditions make of
    them, which is data of the rule's outcome vector. *)
Record request := {
  q_encoded_slash : bool;          (* the raw path contains %2F *)
  q_upstream : upstream_mode }.    (* behaviour of the upstream, should the request get there *)

(** ** Conditions *)

(** CompiledExpression.Eval + celExecutionCondition.CanExecuteOn...:
    value true -> run; any other value -> EvalError -> "false, nil";
    a program error is returned unless errors.Is(err, &EvalError{}) *)
Inductive can := Run | Skip | CondFail (e : err) | CondPanic (v : option err).

Definition can_execute (c : option cond) : can :=
  match c with
  | None => Run
  | Some (CVal true) => Run
  | Some (CVal false) => Skip
  | Some (CErr e) => if is_ TEval e then Skip else CondFail e
  | Some (CPanics v) => CondPanic v
  end.

(** ** compositeSubjectCreator.Execute *)
Inductive stage_res := StOk | StFail (e : err) | StPanic (v : option err).

(** [last] is the loop's `err` variable.  An empty (or exhausted) list returns
    (nil, err): with no error at all the rule goes on with a nil subject. *)
Fixpoint run_sc (l : list authn) (last : option err) : stage_res :=
  match l with
  | [] => match last with Some e => StFail e | None => StOk end
  | a :: r =>
      match a_out a with
      | Ok => StOk
      | Fail e => if is_ (TKind KArgument) e || a_fallback a   (* `&& idx < len(ca)` is always true *)
                  then run_sc r (Some e)
                  else StFail e
      | Panics v => StPanic v
      end
  end.

(** ** conditionalSubjectHandler.Execute and compositeSubjectHandler.Execute *)
Definition step_exec (s : step) : outcome :=
  match can_execute (s_if s) with
  | Run => s_out s
  | Skip => Ok
  | CondFail e => Fail e
  | CondPanic v => Panics v
  end.

Fixpoint run_steps (l : list step) : stage_res :=
  match l with
  | [] => StOk
  | s :: r =>
      match step_exec s with
      | Ok => run_steps r
      | Fail e => if s_continue s then run_steps r else StFail e
      | Panics v => StPanic v
      end
  end.

(** ** Error pipeline *)

(** the private sentinel errErrorHandlerNotApplicable of internal/rules.  No
    mechanism, CEL program or authenticator can return (or wrap) it: it is
    unexported; only conditionalErrorHandler produces it.  The generated error
    trees of the correspondence stream therefore never contain [KOther 99]. *)
Definition not_applicable : err := Sentinel (KOther 99%nat).

(** result of the error pipeline: [eh_res] again — the error returned by
    ruleImpl.Execute and the pipeline error recorded in the request context *)

(** what a handler of a given kind does with a cause *)
Definition h_sem (k : ehkind) (cause : err) : eh_res :=
  match k with
  | EhReal m => let hd := mech_exec m cause in EhRet (hd_ret hd) (hd_pipeline hd)
  | EhFails e => EhRet (Some e) None
  | EhPanics v => EhPanic v
  | EhSilent => EhRet None None
  | EhAny f => f cause
  end.

(** one conditionalErrorHandler.Execute: returned error + recorded pipeline error, or panic *)
Definition eh_exec (h : ehstep) (cause : err) : eh_res :=
  match can_execute (e_if h) with
  | Run => h_sem (e_kind h) cause
  | Skip => EhRet (Some not_applicable) None
  | CondFail e => EhRet (Some e) None
  | CondPanic v => EhPanic v
  end.

(** compositeErrorHandler.Execute *)
Fixpoint run_eh (l : list ehstep) (cause : err) : eh_res :=
  match l with
  | [] => EhRet (Some cause) None                    (* "No applicable error handler found" *)
  | h :: r =>
      match eh_exec h cause with
      | EhRet (Some e) p =>
          if is_ (TKind (KOther 99%nat)) e then run_eh r cause else EhRet (Some e) p
      | EhRet None p => EhRet None p
      | EhPanic v => EhPanic v
      end
  end.

(** ** ruleImpl.Execute *)
Inductive rule_res :=
| ROk                                             (* (upstream, nil), nothing recorded *)
| RErr (ret : option err) (pipeline : option err) (* (nil, ret), pipeline error recorded *)
| RPanic (v : option err).

(** the encoded-slash check reads request.URL.RawPath.  Since the fix: commit
    ae6db4f (finding C13-F4) the Envoy request context fills RawPath as the HTTP
    contexts do, so the check fires on all three entry points alike ([en] is kept
    for the record: before that commit it could not fire under Envoy). *)
Definition slash_rejected (en : entry) (r : rule) (q : request) : bool :=
  slashes_off r && q_encoded_slash q.

Definition encoded_slash_error : err := Chain [Sentinel KArgument] false.

Definition after_failure (r : rule) (st : stage_res) (k : rule_res) : rule_res :=
  match st with
  | StOk => k
  | StFail e => match run_eh (eh r) e with EhRet ret p => RErr ret p | EhPanic v => RPanic v end
  | StPanic v => RPanic v
  end.

Definition run_rule (en : entry) (r : rule) (q : request) : rule_res :=
  if slash_rejected en r q then RErr (Some encoded_slash_error) None
  else after_failure r (run_sc (sc r) None)
        (after_failure r (run_steps (sh r))
          (after_failure r (run_steps (fi r)) ROk)).

(** ** Entry points *)

(** the caller's view: HTTP status and number of requests that reached the
    upstream, or the Envoy check result *)
Inductive answer :=
| AHttp (status : Z) (upstream_hits : nat)
| AAbort (upstream_hits : nat)             (* panic escaped the recovery middleware: connection dropped *)
| AEnvoyOk                                 (* CheckResponse with OkHttpResponse, status OK *)
| AEnvoyDenied (g : gcode) (status : Z)    (* CheckResponse with DeniedHttpResponse *)
| AEnvoyStatus (g : gcode).                (* gRPC status error *)

(** statuses do not depend on content negotiation: any oracle will do *)
Definition o0 : oracle :=
  {| o_neg_http := None; o_neg_grpc := None; o_json_ne := true; o_xml_ne := true; o_plain_ne := true |}.

Definition of_hfinal (f : hfinal) (accepted : Z) : answer :=
  match f with
  | HFinal s _ _ => AHttp s 0
  | HAbort => AAbort 0
  | HPositive => AHttp accepted 0     (* not produced by error scenarios, see C12 never_success_stack *)
  end.

Definition of_gfinal (f : gfinal) : answer :=
  match f with
  | GDenied d => AEnvoyDenied (g_code d) (g_status d)
  | GStatusErr g => AEnvoyStatus g
  | GPositive => AEnvoyOk
  end.

Definition accepted_code (c : config) : Z := if c_accepted c =? 0 then 200 else c_accepted c.

(** a failure (returned error / panic) answered by the entry point's stack *)
Definition fail_answer (en : entry) (c : config) (sc : scenario) : answer :=
  match en with
  | Envoy => of_gfinal (grpc_respond (c_respond c) o0 sc)
  | _ => of_hfinal (http_respond (c_respond c) o0 sc) (accepted_code c)
  end.

Definition no_upstream_error : err := Chain [Sentinel KConfiguration] false.
(** ReverseProxy.ErrorHandler: "Failed to proxy request" caused by the transport's error *)
Definition upstream_error : err := Chain [Sentinel KCommunication; Foreign 0%nat] false.

Definition with_hits (n : nat) (a : answer) : answer :=
  match a with AHttp s _ => AHttp s n | AAbort _ => AAbort n | x => x end.

(** requests that reached the upstream while the answer was produced (the
    decision and Envoy services never contact it) *)
Definition hits_of (a : answer) : nat :=
  match a with AHttp _ h | AAbort h => h | _ => 0%nat end.

(** Finalize when no pipeline error is recorded; [upstream] = the rule.Backend
    handed to Finalize is not nil *)
Definition positive_answer (en : entry) (c : config) (upstream : bool) (up : upstream_mode) : answer :=
  match en with
  | Decision =>
      (* rw.WriteHeader(responseCode) panics on an invalid code -> recovery middleware *)
      if valid_code (accepted_code c) then AHttp (accepted_code c) 0
      else fail_answer Decision c (ScPanic None)
  | Proxy =>
      if upstream then
        match up with
        | UpOk s => AHttp s 1        (* the upstream's answer is relayed *)
        | UpAbort => with_hits 1 (fail_answer Proxy c (ScError upstream_error))
        end
      else fail_answer Proxy c (ScError no_upstream_error)
  | Envoy => AEnvoyOk
  end.

Definition no_rule_error : err := Chain [Sentinel KNoRule] false.

(** service.handler.ServeHTTP / grpcv3.Handler.Check around ruleExecutor.Execute *)
Definition serve_rule (en : entry) (c : config) (r : rule) (q : request) : answer :=
  match run_rule en r q with
  | ROk => positive_answer en c (backend r) (q_upstream q)
  | RErr (Some e) _ => fail_answer en c (ScError e)         (* executor error -> translator *)
  | RErr None (Some p) => fail_answer en c (ScError p)      (* Finalize returns the pipeline error *)
  | RErr None None => positive_answer en c false (q_upstream q)   (* nothing recorded: Finalize proceeds, upstream nil *)
  | RPanic v => fail_answer en c (ScPanic v)
  end.

Definition serve (en : entry) (c : config) (l : lookup) (q : request) : answer :=
  match l with
  | Matched r | Default r => serve_rule en c r q
  | NoRule => fail_answer en c (ScError no_rule_error)
  end.

(** ** equality tests for the evaluator *)
Definition answer_eqb (a b : answer) : bool :=
  match a, b with
  | AHttp s h, AHttp s' h' => (s =? s') && Nat.eqb h h'
  | AAbort h, AAbort h' => Nat.eqb h h'
  | AEnvoyOk, AEnvoyOk => true
  | AEnvoyDenied g s, AEnvoyDenied g' s' => gcode_eqb g g' && (s =? s')
  | AEnvoyStatus g, AEnvoyStatus g' => gcode_eqb g g'
  | _, _ => false
  end.
